"""C14 — equality tells equal content from different content.
Pairs (a, b) of valid blocks of every type: b = a itself, b = decode(encode(a)), or a with exactly one field /
element changed, one element appended or removed; a == b and b == a on the implementation against Equality.v
(op 45) and against the property's own verdict (equal for the first two, unequal for every mutation)."""
import copy
import json
import os
import shutil
import struct

import numpy as np

from harness import blocks, codec, common

ITEMS = {"D3": 9, "EM": 5, "FT": 8, "PD": 5, "PC": 3, "D2": None, "CA": 6, "OS": 2, "EV": 2}
COUNT = {"D3": 3, "EM": 0, "FT": 0, "PD": 0, "PC": 0, "CA": 0, "OS": 0, "EV": 0}
MAP = {"EM": 4, "PD": 4, "PC": 2, "CA": 5, "D2": 5}


def f32_of(bits):
    return float(np.array([bits], dtype="<u4").view("<f4")[0])


def bits_of(x):
    return int(np.array([x], dtype="<f4").view("<u4")[0])


def is_nan(b):
    return blocks.is_nan32(b)


def far(bits):
    """a float32 pattern that is unmistakably different from `bits` (not within any sensible tolerance)"""
    x = f32_of(bits)
    if not np.isfinite(x) or abs(x) < 1.0:
        return bits_of(1000.0)
    return bits_of(np.float32(-x))


def far64(bits):
    x = float(np.array([bits], dtype="<u8").view("<f8")[0])
    y = 1000.0 if (not np.isfinite(x) or abs(x) < 1.0) else -x
    return int(np.array([y], dtype="<f8").view("<u8")[0])


def ulp64(bits):
    """the neighbouring binary64 number (one unit in the last place away): far below binary32 resolution, but a different
    number — fields the library compares exactly (np.array_equal on float64) must tell them apart"""
    x = float(np.array([bits], dtype="<u8").view("<f8")[0])
    if not np.isfinite(x):
        return far64(bits)
    y = np.nextafter(x, np.inf if x >= 0 else -np.inf)
    if not np.isfinite(y) or y == x:
        y = np.nextafter(x, 0.0)
    return int(np.array([y], dtype="<f8").view("<u8")[0])


def ulp32(bits):
    x = f32_of(bits)
    if not np.isfinite(x):
        return far(bits)
    y = np.nextafter(np.float32(x), np.float32(np.inf) if x >= 0 else np.float32(-np.inf))
    if not np.isfinite(y) or y == x:
        y = np.nextafter(np.float32(x), np.float32(0.0))
    return bits_of(np.float32(y))


def sanitize(kind, v):
    """the property quantifies over blocks whose floats are numbers (NaN only as a wholly-missing frame)"""
    def fix(b):
        return 0x3F800000 if is_nan(b) else b
    if kind in ("D3", "FT"):
        v[2] = fix(v[2])
        for k in (4, 5, 6):
            v[k] = [fix(b) for b in v[k]]
    elif kind in ("EM", "PD"):
        v[2] = fix(v[2])
    elif kind == "PC":
        for p in v[3]:
            p[1] = [fix(b) for b in p[1]]
            p[2] = [fix(b) for b in p[2]]
    elif kind == "D2":
        v[3] = fix(v[3])
        v[6] = [[[[fix(x), fix(y)] for x, y in cell] for cell in row] for row in v[6]]
    elif kind == "CA":
        for k in (2, 3, 4):
            v[k] = [fix(b) for b in v[k]]
    elif kind == "EV":
        v[1] = fix(v[1])
        for e in v[2]:
            e[3] = [fix(b) for b in e[3]]
    return v


def with_twin_item(kind, v, rng):
    """v with one of its items present TWICE (an identical copy appended; where items carry channel numbers the copy gets
    a channel of its own): a comparison that asks "does the other block contain an item like mine" instead of comparing
    item by item cannot tell a change made to one of the twins"""
    ik = ITEMS.get(kind)
    if ik is None or not v[ik]:
        return None
    j = rng.randrange(len(v[ik]))
    v[ik].append(copy.deepcopy(v[ik][j]))
    v[COUNT[kind]] += 1
    if kind in MAP:
        v[MAP[kind]].append(next(c for c in range(600, 900) if c not in v[MAP[kind]]))
    return j


def mutations(kind, fmt, v, rng, at=None):
    """[(description, mutated value)] — each differs from v in exactly one clause of the property"""
    out = []

    def mut(desc, fn):
        w = copy.deepcopy(v)
        if fn(w) is not False:
            out.append((desc, w))
    ik = ITEMS[kind]
    # --- header scalars
    if kind in ("D3", "EM", "FT", "PD"):
        mut("frequency", lambda w: w.__setitem__(1, (w[1] + 1) if w[1] < 2 ** 31 - 1 else w[1] - 1))
        mut("startTime", lambda w: w.__setitem__(2, far(w[2])))
    if kind == "D3":
        mut("flags", lambda w: w.__setitem__(7, 1 - w[7]))
        mut("volume[1]", lambda w: w[4].__setitem__(1, far(w[4][1])))
        mut("rotation[8]", lambda w: w[5].__setitem__(8, far(w[5][8])))
        mut("translation[0]", lambda w: w[6].__setitem__(0, far(w[6][0])))
        if fmt == 1:
            mut("one link appended", lambda w: (w[8][2].append([1, 2]), w[8].__setitem__(0, w[8][0] + 1)))
            if v[8][0] > 0:
                mut("a link's end", lambda w: w[8][2][0].__setitem__(1, (w[8][2][0][1] + 1) % 2 ** 32))
    if kind == "FT":
        mut("volume[2]", lambda w: w[4].__setitem__(2, far(w[4][2])))
    if kind == "D2":
        mut("frequency", lambda w: w.__setitem__(2, w[2] + 1 if w[2] < 2 ** 31 - 1 else w[2] - 1))
        mut("startTime", lambda w: w.__setitem__(3, far(w[3])))
        mut("flags", lambda w: w.__setitem__(4, 1 - w[4]))
    if kind == "CA":
        mut("distortion model", lambda w: w.__setitem__(1, (w[1] + 1) % 4))
        mut("volume size[0]", lambda w: w[2].__setitem__(0, far(w[2][0])))
        mut("volume size[1] by one ulp", lambda w: w[2].__setitem__(1, ulp32(w[2][1])))
        mut("volume rotation[4] by one ulp", lambda w: w[3].__setitem__(4, ulp32(w[3][4])))
        mut("volume translation[2] by one ulp", lambda w: w[4].__setitem__(2, ulp32(w[4][2])))
    if kind == "EV":
        mut("start time", lambda w: w.__setitem__(1, far(w[1])))
    # --- channel numbers
    if kind in MAP and len(v[MAP[kind]]) > 0:
        j = rng.randrange(len(v[MAP[kind]]))
        used = set(v[MAP[kind]])
        new = next(c for c in range(1, 300) if c not in used)
        mut("channel number %d" % j, lambda w: w[MAP[kind]].__setitem__(j, new))
    # --- item count
    if ik is not None and kind != "D2":
        items = v[ik]

        def append(w):
            if kind == "D3":
                proto = [[0x7A], [[] for _ in range(w[0])]]
            elif kind == "EM":
                proto = [[0x7A], [[] for _ in range(w[3])]]
                w[4].append(next(c for c in range(300, 600) if c not in w[4]))
            elif kind == "FT":
                proto = [[0x7A], [[] for _ in range(w[3])]]
            elif kind == "PD":
                proto = [[] for _ in range(w[3])]
                w[4].append(next(c for c in range(300, 600) if c not in w[4]))
            elif kind == "PC":
                proto = [[0x7A], [0x3F800000] * 2, [0] * 12, []]
                w[2].append(next(c for c in range(300, 600) if c not in w[2]))
            elif kind == "CA":
                if not w[6]:
                    return False
                proto = copy.deepcopy(w[6][-1])
                w[5].append(next(c for c in range(300, 600) if c not in w[5]))
            elif kind == "OS":
                proto = [7, [], [0x7A], [], [], [[0, 0], [1, 1]]]
            else:
                proto = [[0x7A], 1, 0, []]
            w[ik].append(proto)
            w[COUNT[kind]] += 1
        mut("one item appended", append)
        if items:
            def remove(w):
                w[ik].pop()
                w[COUNT[kind]] -= 1
                if kind in MAP:
                    w[MAP[kind]].pop()
            mut("last item removed", remove)
            j = rng.randrange(len(items)) if at is None else at
            # --- a label
            if kind in ("D3", "EM", "FT", "PC", "EV"):
                def relabel(w):
                    lab = w[ik][j][0]
                    if len(lab) < 200:
                        lab.append(0x21)
                    else:
                        lab[0] = 0x21 if lab[0] != 0x21 else 0x22
                mut("label of item %d" % j, relabel)
            if kind == "OS":
                mut("camera name of channel %d" % j, lambda w: w[ik][j][4].append(0x21) if len(w[ik][j][4]) < 30 else w[ik][j][4].__setitem__(0, 0x21 if w[ik][j][4][0] != 0x21 else 0x22))
                mut("viewport of channel %d" % j, lambda w: w[ik][j][5][1].__setitem__(0, (w[ik][j][5][1][0] + 1) if w[ik][j][5][1][0] < 2 ** 31 - 1 else 0))
                mut("logical index of channel %d" % j, lambda w: w[ik][j].__setitem__(0, (w[ik][j][0] + 1) if w[ik][j][0] < 2 ** 31 - 1 else 0))
            # --- a sample
            if kind in ("D3", "EM", "FT"):
                frames = items[j][1]
                pres = [i for i, fr in enumerate(frames) if fr != []]
                if pres:
                    i = rng.choice(pres)
                    if kind == "EM":
                        mut("sample %d of signal %d" % (i, j), lambda w: w[ik][j][1].__setitem__(i, far(w[ik][j][1][i])))
                    else:
                        c = rng.randrange(len(frames[i]))
                        mut("component %d of frame %d of track %d" % (c, i, j), lambda w: w[ik][j][1][i].__setitem__(c, far(w[ik][j][1][i][c])))
                    mut("frame %d of item %d becomes missing" % (i, j), lambda w: w[ik][j][1].__setitem__(i, []))
            if kind == "PD":
                frames = items[j]
                pres = [i for i, fr in enumerate(frames) if fr != []]
                if pres:
                    i = rng.choice(pres)
                    c = rng.randrange(6)
                    mut("component %d of frame %d of platform %d" % (c, i, j), lambda w: w[ik][j][i].__setitem__(c, far(w[ik][j][i][c])))
                    mut("frame %d of platform %d becomes missing" % (i, j), lambda w: w[ik][j].__setitem__(i, []))
            if kind == "PC":
                mut("size of platform %d" % j, lambda w: w[ik][j][1].__setitem__(0, far(w[ik][j][1][0])))
                mut("a vertex of platform %d" % j, lambda w: w[ik][j][2].__setitem__(7, far(w[ik][j][2][7])))
            if kind == "CA":
                mut("focus of camera %d" % j, lambda w: w[ik][j][2].__setitem__(0, far64(w[ik][j][2][0])))
                mut("rotation of camera %d" % j, lambda w: w[ik][j][0].__setitem__(4, far64(w[ik][j][0][4])))
                mut("last coefficient field of camera %d" % j, lambda w: w[ik][j][-2].__setitem__(len(w[ik][j][-2]) - 1, far64(w[ik][j][-2][-1])))
                mut("viewport of camera %d" % j, lambda w: w[ik][j][-1][0].__setitem__(1, (w[ik][j][-1][0][1] + 1) if w[ik][j][-1][0][1] < 2 ** 31 - 1 else 0))
                # every float64 field of the camera record, moved by one unit in the last place (these fields are compared exactly)
                for fi in range(len(items[j]) - 1):
                    if items[j][fi]:
                        pos = rng.randrange(len(items[j][fi]))
                        mut("field %d[%d] of camera %d by one ulp" % (fi, pos, j),
                            lambda w, fi=fi, pos=pos: w[ik][j][fi].__setitem__(pos, ulp64(w[ik][j][fi][pos])))
            if kind == "EV":
                mut("kind / values of event %d" % j, lambda w: (w[ik][j].__setitem__(3, w[ik][j][3] + [0x41200000]), w[ik][j].__setitem__(2, w[ik][j][2] + 1),
                                                                 w[ik][j].__setitem__(1, 1)))
                if items[j][3]:
                    mut("a value of event %d" % j, lambda w: w[ik][j][3].__setitem__(0, far(w[ik][j][3][0])))
                    mut("a value of event %d by one ulp" % j, lambda w: w[ik][j][3].__setitem__(0, ulp32(w[ik][j][3][0])))
    if kind == "D2" and v[0] > 0 and v[1] > 0:
        fr, cam = rng.randrange(v[1]), rng.randrange(v[0])
        mut("one point appended to cell (%d,%d)" % (fr, cam), lambda w: w[6][fr][cam].append([0x41200000, 0x41A00000]))
        if v[6][fr][cam]:
            mut("a coordinate in cell (%d,%d)" % (fr, cam), lambda w: w[6][fr][cam][0].__setitem__(0, far(w[6][fr][cam][0][0])))
            mut("a coordinate in cell (%d,%d) by one ulp" % (fr, cam), lambda w: w[6][fr][cam][0].__setitem__(1, ulp32(w[6][fr][cam][0][1])))
            mut("cell (%d,%d) emptied" % (fr, cam), lambda w: w[6][fr].__setitem__(cam, []))
    return out


def widen_header_floats(kind, o):
    """give the block its start time as a Python float that is NOT exactly a float32 but rounds to the stored one:
    content is compared at the on-disk width"""
    attr = {"D3": "startTime", "EM": "startTime", "FT": "startTime", "D2": "startTime", "PD": "start_time", "EV": "start_time"}.get(kind)
    if not attr:
        return
    x = float(getattr(o, attr))
    if x == 0.0 or not np.isfinite(x):
        return
    y = x * (1.0 + 2.0 ** -30)
    if np.float32(y) == np.float32(x):
        setattr(o, attr, y)


def compare(a, b):
    def one(x, y):
        try:
            r = (x == y)
            return bool(r)
        except Exception as e:
            return "raised " + common.exc_info(e)
    return one(a, b), one(b, a)


def run(chk):
    rng = common.rng_for(chk.seed, "C14")
    n = 500 if chk.tier == "quick" else 6000
    chk.rule = ("valid blocks of all nine types (floats are numbers; NaN only as a wholly-missing frame) paired with: the same "
                "object, an independently built twin, decode(encode(a)), and a with exactly one change — a header scalar, a "
                "channel number, a label, a sample / coordinate / coefficient moved far beyond tolerance, an exactly-compared float (camera record fields, calibration volume, event values, 2D coordinates) moved by one unit in the last place, a present frame made "
                "missing, one item / link / point appended, the last item removed; a third of the blocks with one item present twice and the change made to one of the twins; a == b and b == a on the implementation vs "
                "Equality.v and vs the property's verdict; the same for blocks with 256 or more items; plus pairs of files built from such blocks; non-trivial = >= 1 item")
    cases, meta = [], []
    large = codec.large_count_cases(chk)               # 256 or more items / channels / points / segments
    for i in range(n + len(large)):
        if i < n:
            kind = blocks.KINDS[i % len(blocks.KINDS)]
            fmt, v = blocks.gen(kind, rng, big=4)
        else:
            kind, fmt, v = large[i - n]
        v = sanitize(kind, v)
        at = None
        if i < n and (i // len(blocks.KINDS)) % 3 == 2 and kind != "D2":
            j = with_twin_item(kind, v, rng)
            if j is not None:
                at = rng.choice((j, len(v[ITEMS[kind]]) - 1))        # the change goes into one of the two twins
                chk.count("block with an item present twice")
        try:
            a = blocks.build(kind, fmt, v)
            widen_header_floats(kind, a)
            twin = blocks.build(kind, fmt, copy.deepcopy(v))
            raw = blocks.impl_write(a)
            dec, _ = blocks.impl_build(kind, fmt, raw)
        except Exception as e:
            chk.violation("C14: a valid %s block cannot be built / encoded / decoded: %s" % (kind, common.exc_info(e)),
                          {"kind": kind, "fmt": fmt, "v": v}, True)
            continue
        nitems = v[3] if kind == "D3" else v[0]
        chk.count("%s fmt=%d" % (kind, fmt))
        pairs = [("itself", a, v), ("an independently built twin", twin, v), ("decode(encode(a))", dec, v)]
        for desc, w in mutations(kind, fmt, v, rng, at):
            try:
                pairs.append((desc, blocks.build(kind, fmt, w), w))
            except Exception as e:
                raise RuntimeError("mutation %s of %s produced an unbuildable block: %s" % (desc, kind, common.exc_info(e)))
        for desc, bobj, w in pairs:
            r1, r2 = compare(a, bobj)
            chk.note_case((kind, fmt, desc, i), nitems >= 1)
            chk.count("pair: " + ("equal" if w is v else "one change"))
            want = (w is v)
            what = {"kind": kind, "fmt": fmt, "a": v, "b_is": desc}
            if r1 is not want or r2 is not want:
                chk.violation("C14 %s fmt=%d: a == b is %r and b == a is %r where b is %s (expected %r)" %
                              (kind, fmt, r1, r2, ("a with a different " + desc) if not want else desc, want), what, True)
                if chk.n_found() >= 5:
                    return
                continue
            cases.append((45, [blocks.TY[kind], fmt, v, w]))
            meta.append((kind, fmt, desc, r1, r2, what))
    # equality must follow the block's CURRENT content: compare, edit one side in place, compare again
    for i in range(150 if chk.tier == "quick" else 2000):
        kind = blocks.KINDS[i % len(blocks.KINDS)]
        fmt, v = blocks.gen(kind, rng, big=4)
        v = sanitize(kind, v)
        w = sanitize(kind, blocks.perturb(kind, fmt, v, rng))
        if w == v:
            continue
        a, b = blocks.build(kind, fmt, v), blocks.build(kind, fmt, copy.deepcopy(v))
        first = compare(a, b)
        blocks.warm(b)
        try:
            blocks.apply_inplace(kind, fmt, b, w)
        except Exception as e:
            raise RuntimeError("in-place edit failed for %s: %s" % (kind, common.exc_info(e)))
        second = compare(a, b)
        chk.note_case((kind, fmt, "edited in place after a comparison", i), True)
        chk.count("pair: compared, edited in place, compared again")
        what = {"kind": kind, "fmt": fmt, "a": v, "b_edited_in_place_to": w}
        if first != (True, True) or second[0] is not False or second[1] is not False:
            chk.violation("C14 %s fmt=%d: twins compare %r; after editing one of them in place to a different content they compare %r "
                          "(expected (False, False))" % (kind, fmt, first, second), what, True)
            if chk.n_found() >= 5:
                return
        else:
            cases.append((45, [blocks.TY[kind], fmt, v, w]))
            meta.append((kind, fmt, "a block edited in place to another content", False, False, what))
    mres = common.run_model_sharded(cases)
    for (kind, fmt, desc, r1, r2, what), m in zip(meta, mres):
        if m[0] != 0:
            chk.violation("C14: Equality.v has no schema for %s" % kind, dict(what, correspondence="Equality.block_eq"), False)
            continue
        e1, e2, refl = bool(m[1][0]), bool(m[1][1]), bool(m[1][2])
        if (r1, r2) != (e1, e2):
            chk.violation("C14 %s fmt=%d: correspondence broken: a == b -> (%r, %r), Equality.v (%r, %r) where b is %s" %
                          (kind, fmt, r1, r2, e1, e2, desc), dict(what, correspondence="coq/Model/Equality.v"), False)
        elif not refl:
            chk.violation("C14 %s: generated block is outside the reflexivity theorem's premise (reflb = false)" % kind,
                          dict(what, correspondence="Equality.reflb"), False)
    files_check(chk, rng)
    stale_handle_files(chk, rng)


def files_check(chk, rng):
    """two files compare equal exactly when their version, slot count and block lists do"""
    from basictdf import Tdf
    from harness import container
    work = os.path.join(chk.work, "c14files")
    os.makedirs(work, exist_ok=True)
    for j in range(12 if chk.tier == "quick" else 120):
        kinds = rng.sample(blocks.KINDS, rng.randrange(1, 4))
        specs = [container.small_block(k, rng, 1) for k in kinds]
        for s in specs:
            s.v = sanitize(s.kind, s.v)
        p1, p2, p3 = (os.path.join(work, "f%d_%d.tdf" % (j, i)) for i in range(3))
        for p in (p1, p2, p3):
            if os.path.exists(p):
                os.unlink(p)
        with container.scripted_clock():
            container.Clock.now = container.T0
            Tdf.new(p1)
            Tdf.new(p2)
            Tdf.new(p3)
            container.run_impl(p1, [[("add", s, None) for s in specs]])
            container.run_impl(p2, [[("add", s, "another comment") for s in specs]])
            changed = copy.deepcopy(specs)
            k = rng.randrange(len(changed))
            muts = mutations(changed[k].kind, changed[k].fmt, changed[k].v, rng)
            if not muts:
                continue
            changed[k].v = muts[0][1]
            container.run_impl(p3, [[("add", s, None) for s in changed]])
        try:
            with Tdf(p1) as a, Tdf(p2) as b, Tdf(p3) as c:
                same, diff = (a == b), (a == c)
        except Exception as e:
            same, diff = "raised " + common.exc_info(e), None
        chk.note_case(("files", tuple(kinds), j), True)
        chk.count("file pair")
        if same is not True or diff is not False:
            chk.violation("C14: files holding %r: equal content compares %r, one block changed (%s) compares %r" %
                          (kinds, same, muts[0][0], diff), {"kinds": kinds, "changed": muts[0][0]}, True)
            return


def stale_handle_files(chk, rng):
    """file equality looks at the files as they are NOW: an object that was inside a context before another object
    added / removed a block of its file still compares equal to a byte-identical copy of the file (both ways), and
    unequal to a copy taken before the change"""
    import shutil as _sh
    from basictdf import Tdf
    from harness import container
    work = os.path.join(chk.work, "c14stale")
    os.makedirs(work, exist_ok=True)
    for j in range(8 if chk.tier == "quick" else 60):
        p, before, after = (os.path.join(work, "s%d_%s.tdf" % (j, x)) for x in ("live", "before", "after"))
        for f in (p, before, after):
            if os.path.exists(f):
                os.unlink(f)
        kinds = rng.sample(["EV", "EM", "D3", "FT", "PD", "OS"], 3)
        specs = [container.small_block(k, rng, 1) for k in kinds]
        for sp in specs:
            sp.v = sanitize(sp.kind, sp.v)
        with container.scripted_clock():
            container.Clock.now = container.T0
            Tdf.new(p)
            container.run_impl(p, [[("add", sp, None) for sp in specs[:2]]])
            first = Tdf(p)
            with first:
                pass                                  # the long-lived object has seen the table once
            _sh.copyfile(p, before)
            change = ("add", specs[2], None) if j % 2 == 0 else ("remove", specs[0].ty())
            with Tdf(p).allow_write() as other:       # somebody else changes the number of blocks
                container.apply_op(other, change)
            _sh.copyfile(p, after)
        try:
            cp_after, cp_before = Tdf(after), Tdf(before)
            if j % 4 < 2:                      # the other operand has been used before, or is brand new
                cp_after.has_events
                with cp_before:
                    pass
            same = (first == cp_after, cp_after == first)
            diff = (first == cp_before, cp_before == first)
        except Exception as e:
            same, diff = "raised " + common.exc_info(e), None
        chk.note_case(("stale handle files", tuple(kinds), j), True)
        chk.count("file pair through a long-lived object")
        if same != (True, True) or diff != (False, False):
            chk.violation("C14: a Tdf object that was inside a context before another object %s a block compares %r with a byte-identical "
                          "copy of its file and %r with a copy taken before the change (expected (True, True) and (False, False))" %
                          ("added" if j % 2 == 0 else "removed", same, diff), {"kinds": kinds, "change": change[0]}, True)
            return


def replay(chk, path):
    run(chk)
    chk.rule = "replay (re-runs the seeded pairs) of " + path

(* driver.ml — text <-> V glue around the extracted model.
   stdin : one case per line   "<opcode> <sexp>"   sexp ::= int | "(" sexp* ")"
   stdout: one result per line "<sexp>"                                                  *)
open Model

let rec pos_of_int n = if n = 1 then XH else if n land 1 = 1 then XI (pos_of_int (n lsr 1)) else XO (pos_of_int (n lsr 1))
let z_of_int n = if n = 0 then Z0 else if n > 0 then Zpos (pos_of_int n) else Zneg (pos_of_int (-n))
let ten = z_of_int 10

(* decimal string -> z; small numbers through OCaml ints, big ones through the model's own Z arithmetic *)
let z_of_string s =
  let n = String.length s in
  if n <= 17 then z_of_int (int_of_string s)
  else begin
    let neg = s.[0] = '-' in
    let acc = ref Z0 in
    for i = (if neg then 1 else 0) to n - 1 do
      acc := Z.add (Z.mul !acc ten) (z_of_int (Char.code s.[i] - 48))
    done;
    if neg then Z.opp !acc else !acc
  end

let rec pos_bits p = match p with XH -> 1 | XO q | XI q -> 1 + pos_bits q
let rec int_of_pos p = match p with XH -> 1 | XO q -> 2 * int_of_pos q | XI q -> 2 * int_of_pos q + 1

let rec string_of_pos_big p =
  (* repeated division by ten with the model's Z.div_eucl *)
  let rec go z acc = match z with
    | Z0 -> acc
    | _ -> let (q, r) = Z.div_eucl z ten in
           let d = (match r with Z0 -> 0 | Zpos p -> int_of_pos p | Zneg _ -> 0) in
           go q (String.make 1 (Char.chr (48 + d)) ^ acc) in
  go (Zpos p) ""
let string_of_pos p = if pos_bits p <= 60 then string_of_int (int_of_pos p) else string_of_pos_big p
let string_of_z z = match z with Z0 -> "0" | Zpos p -> string_of_pos p | Zneg p -> "-" ^ string_of_pos p

(* parser *)
let parse (s : string) (start : int) : v =
  let n = String.length s in
  let pos = ref start in
  let rec skip () = if !pos < n && (s.[!pos] = ' ' || s.[!pos] = '\t') then (incr pos; skip ()) in
  let rec value () : v =
    skip ();
    if !pos >= n then failwith "eof"
    else if s.[!pos] = '(' then begin
      incr pos;
      let items = ref [] in
      let rec loop () =
        skip ();
        if !pos >= n then failwith "unclosed"
        else if s.[!pos] = ')' then incr pos
        else (items := value () :: !items; loop ()) in
      loop ();
      VL (List.rev !items)
    end else begin
      let st = !pos in
      while !pos < n && s.[!pos] <> ' ' && s.[!pos] <> ')' && s.[!pos] <> '(' do incr pos done;
      VI (z_of_string (String.sub s st (!pos - st)))
    end in
  value ()

let rec print (b : Buffer.t) (x : v) : unit =
  match x with
  | VI z -> Buffer.add_string b (string_of_z z)
  | VL l ->
      Buffer.add_char b '(';
      let first = ref true in
      List.iter (fun y -> if not !first then Buffer.add_char b ' '; first := false; print b y) l;
      Buffer.add_char b ')'

let () =
  let b = Buffer.create 65536 in
  (try
     while true do
       let line = input_line stdin in
       if String.length line > 0 then begin
         let sp = String.index line ' ' in
         let op = z_of_string (String.sub line 0 sp) in
         let arg = parse line (sp + 1) in
         let res = (try run op arg with Stack_overflow -> VL [VI (z_of_int 99)]) in
         Buffer.clear b;
         print b res;
         Buffer.add_char b '\n';
         print_string (Buffer.contents b)
       end
     done
   with End_of_file -> ());
  flush stdout
